"""Back end B: frame (modifies-clause) checker over the real source AST.

For every function in scope it computes the set of heap writes the body can
perform, each tagged with the ORIGIN of the written object:

  FRESH        allocated in this activation (literal, comprehension,
               constructor / copying builtin, result of a call that is
               contracted as allocating)
  SELF         `self` (or anything reached from it)
  PARAM(p)     parameter p (or anything reached from it)
  GLOBAL(n)    module-level name n
  NONLOCAL(n)  variable of an enclosing function
  UNKNOWN      result of a call the checker has no summary for

and checks  writes(f) <= modifies(f)  where modifies(f) is the clause in the
sidecar (contracts/frames_spec.py); the default clause is empty (the function
writes nothing but fresh objects).  Call effects are composed bottom-up:
a callee that writes PARAM(i) makes the caller write the origin of its i-th
actual.  Hidden-state decorators (lru_cache, cache, cached_property) and
mutable default arguments that are mutated count as GLOBAL writes.

Soundness assumptions (A7): all heap writes are syntactically visible -
`setattr`/`delattr` with computed names, `__dict__`/`vars()` surgery,
`globals()`, `exec`/`eval` are reported as UNKNOWN writes (fail closed).
"""
import ast
import os

MUTATORS = {'append', 'extend', 'insert', 'pop', 'remove', 'clear', 'sort',
            'reverse', 'update', 'setdefault', 'add', 'discard', 'popleft',
            'appendleft', 'rotate', 'popitem', 'difference_update',
            'intersection_update', 'symmetric_difference_update',
            'extendleft', '__setitem__', '__delitem__', 'move_to_end',
            'register_function', 'delete_function'}
ALLOCATORS = {'list', 'dict', 'set', 'tuple', 'frozenset', 'sorted', 'str',
              'int', 'float', 'bool', 'bytes', 'map', 'filter', 'zip',
              'enumerate', 'range', 'reversed', 'iter', 'len', 'min', 'max',
              'sum', 'abs', 'isinstance', 'issubclass', 'repr', 'hash',
              'callable', 'getattr', 'hasattr', 'type', 'object', 'any',
              'all', 'next', 'hex', 'round', 'pow', 'divmod', 'ord', 'chr',
              'id', 'format', 'super', 'print', 'slice', 'bytearray',
              'deque', 'OrderedDict', 'defaultdict', 'FrozenDict',
              'partial', 'chain', 'islice', 'cycle', 'repeat', 'count',
              'takewhile', 'dropwhile', 'zip_longest', 'reduce', 'copy',
              'deepcopy', 'compile', 'namedtuple'}
COPY_METHODS = {'copy', 'clone', 'create_child_context', 'items', 'keys',
                'values', 'get', 'split', 'rsplit', 'join', 'strip',
                'lstrip', 'rstrip', 'replace', 'format', 'upper', 'lower',
                'find', 'rfind', 'startswith', 'endswith', 'union',
                'intersection', 'difference', 'symmetric_difference',
                'issubset', 'issuperset', 'count', 'index', 'encode',
                'decode', 'group', 'groups', 'groupdict', 'start', 'end',
                'search', 'match', 'finditer', 'sub', 'total_seconds',
                'utcoffset', 'astimezone', 'timetuple', 'isoformat',
                'strftime', 'date', 'time', 'rstrip'}
# methods that return the receiver's own mutable state or the receiver
ALIAS_METHODS = {'setdefault', '__getitem__'}
HIDDEN_STATE_DECORATORS = {'lru_cache', 'cache', 'cached_property',
                           'functools.lru_cache', 'functools.cache',
                           'functools.cached_property', 'memoize'}
FAIL_CLOSED_CALLS = {'setattr', 'delattr', 'exec', 'eval', 'globals',
                     'vars', 'locals'}

FRESH = ('FRESH',)
UNKNOWN = ('UNKNOWN',)


def fmt(o):
    return o[0] if len(o) == 1 else '%s(%s)' % o


class FuncInfo:
    def __init__(self, module, qualname, node, cls=None):
        self.module, self.qualname, self.node, self.cls = \
            module, qualname, node, cls
        self.writes = set()     # (origin, what, line)
        self.calls = []         # (callee key candidates, arg origins, line)
        self.ret = set()        # origins the return value may alias
        self.params = []
        self.reads_global = set()
        self.all_origins = {}   # local name -> every origin ever bound to it

    @property
    def key(self):
        return '%s.%s' % (self.module, self.qualname)


class Analyzer(ast.NodeVisitor):
    """Flow-insensitive origin analysis of one function body."""

    def __init__(self, fi, program):
        self.fi, self.program = fi, program
        a = fi.node.args
        self.params = [p.arg for p in a.posonlyargs + a.args + a.kwonlyargs]
        if a.vararg:
            self.params.append(a.vararg.arg)
        if a.kwarg:
            self.params.append(a.kwarg.arg)
        fi.params = self.params
        self.env = {}
        self.varkw = a.kwarg.arg if a.kwarg else None
        for i, p in enumerate(self.params):
            if i == 0 and fi.cls and p in ('self', 'this') and \
                    not _is_static(fi.node):
                self.env[p] = {('SELF',)}
            elif i == 0 and fi.cls and p == 'cls':
                self.env[p] = {('GLOBAL', fi.cls)}
            elif p == self.varkw:
                self.env[p] = {FRESH}   # the ** dict is built per call
            else:
                self.env[p] = {('PARAM', p)}
        self.globals_declared = set()
        self.nonlocals = set()
        # names bound (only) to evidently scalar values: `x op= y` rebinds
        self.scalar_names = set()
        self.nonscalar_names = set()
        self.local_names = set(self.params)
        for n in ast.walk(fi.node):
            if isinstance(n, ast.Global):
                self.globals_declared.update(n.names)
            elif isinstance(n, ast.Nonlocal):
                self.nonlocals.update(n.names)
        for n in _own_nodes(fi.node):
            if isinstance(n, ast.Name) and isinstance(n.ctx, ast.Store) and \
                    n.id not in self.globals_declared and \
                    n.id not in self.nonlocals:
                self.local_names.add(n.id)
            elif isinstance(n, (ast.FunctionDef, ast.ClassDef)) and \
                    n is not fi.node:
                self.local_names.add(n.name)
        self.enclosing = fi.enclosing_locals if hasattr(
            fi, 'enclosing_locals') else set()

    # origins of an expression -------------------------------------------
    def origins(self, e):
        if e is None:
            return {FRESH}
        if isinstance(e, ast.Name):
            if e.id in self.env and e.id in self.local_names:
                return set(self.env[e.id])
            if e.id in self.local_names:
                return {FRESH}      # local not yet seen: filled by fixpoint
            if e.id in self.enclosing:
                return {('NONLOCAL', e.id)}
            if e.id in ('None', 'True', 'False'):
                return {FRESH}
            return {('GLOBAL', e.id)}
        if isinstance(e, (ast.Constant, ast.JoinedStr, ast.Compare,
                          ast.BoolOp, ast.UnaryOp)) and not isinstance(
                              e, ast.BoolOp):
            return {FRESH}
        if isinstance(e, ast.BoolOp):
            out = set()
            for v in e.values:
                out |= self.origins(v)
            return out
        if isinstance(e, (ast.List, ast.Dict, ast.Set, ast.Tuple,
                          ast.ListComp, ast.DictComp, ast.SetComp,
                          ast.GeneratorExp, ast.Lambda, ast.BinOp)):
            return {FRESH}
        if isinstance(e, ast.IfExp):
            return self.origins(e.body) | self.origins(e.orelse)
        if isinstance(e, (ast.Attribute, ast.Subscript, ast.Starred)):
            return self.origins(e.value)
        if isinstance(e, ast.NamedExpr):
            return self.origins(e.value)
        if isinstance(e, ast.Await):
            return self.origins(e.value)
        if isinstance(e, (ast.Yield, ast.YieldFrom)):
            return {UNKNOWN}
        if isinstance(e, ast.Call):
            return self.call_origins(e)
        return {UNKNOWN}

    def call_origins(self, e):
        f = e.func
        name = f.id if isinstance(f, ast.Name) else (
            f.attr if isinstance(f, ast.Attribute) else None)
        if isinstance(f, ast.Name):
            if name in ALLOCATORS:
                return {FRESH}
            if name in self.local_names or name in self.enclosing:
                # call of a local closure / callable parameter
                tgt = self.program.local_function(self.fi, name)
                if tgt is not None:
                    return self.summary_ret(tgt, e)
                return {FRESH}      # callback result: not host-aliased state
        if isinstance(f, ast.Attribute):
            if name in COPY_METHODS or name in ALLOCATORS:
                return {FRESH}
            if name in ALIAS_METHODS:
                return self.origins(f.value)
        cands = self.program.resolve_call(self.fi, e)
        if cands:
            out = set()
            for c in cands:
                out |= self.summary_ret(c, e)
            return out
        if isinstance(f, ast.Attribute) and name in MUTATORS:
            return {FRESH}
        # unknown callee: class constructors (Capitalised) allocate
        if name and name[:1].isupper():
            return {FRESH}
        return {FRESH} if isinstance(f, ast.Attribute) and isinstance(
            f.value, ast.Name) and f.value.id in self.program.stdlib_modules(
                self.fi) else {UNKNOWN}

    def summary_ret(self, callee, call):
        out = set()
        for o in callee.ret:
            out |= self.subst(o, callee, call)
        return out or {FRESH}

    def subst(self, o, callee, call):
        """Translate a callee-relative origin into caller origins."""
        if o[0] == 'PARAM':
            actual = _actual_for(callee, call, o[1])
            if actual is None:
                return {FRESH}
            return self.origins(actual)
        if o[0] == 'SELF':
            if callee.qualname.endswith('__init__') and not (
                    isinstance(call.func, ast.Attribute)
                    and call.func.attr == '__init__'):
                return {FRESH}  # constructor call: self is the new object
            if isinstance(call.func, ast.Attribute):
                return self.origins(call.func.value)
            return {FRESH}
        if o[0] == 'NONLOCAL':
            if o[1] in self.env and o[1] in self.local_names:
                return set(self.env[o[1]])
            return {o}
        return {o}

    # statements -----------------------------------------------------------
    def bind(self, target, origins, strong=True):
        if isinstance(target, ast.Name):
            if target.id in self.globals_declared:
                self.fi.writes.add((('GLOBAL', target.id), 'rebind',
                                    target.lineno))
            elif target.id in self.nonlocals:
                self.fi.writes.add((('NONLOCAL', target.id), 'rebind',
                                    target.lineno))
            elif strong:
                self.env[target.id] = set(origins)
                self.fi.all_origins.setdefault(target.id, set()).update(
                    origins)
            else:
                self.env.setdefault(target.id, set()).update(origins)
        elif isinstance(target, (ast.Tuple, ast.List)):
            for t in target.elts:
                self.bind(t, origins, strong)
        elif isinstance(target, ast.Starred):
            self.bind(target.value, origins, strong)
        elif isinstance(target, (ast.Attribute, ast.Subscript)):
            what = ('.' + target.attr) if isinstance(
                target, ast.Attribute) else '[]'
            for o in self.origins(target.value):
                self.fi.writes.add((o, 'store ' + what, target.lineno))

    def run(self):
        """Flow-sensitive pass: strong updates in straight-line code, joins
        at branches, loops iterated to a (bounded) fixpoint."""
        env0 = {k: set(v) for k, v in self.env.items()}
        self.env = env0
        for d in self.fi.node.args.defaults + self.fi.node.args.kw_defaults:
            if d is not None:
                self.scan_expr(d)
        self.exec_block(self.fi.node.body)
        # hidden state via decorators
        for d in self.fi.node.decorator_list:
            txt = ast.unparse(d.func if isinstance(d, ast.Call) else d)
            if txt in HIDDEN_STATE_DECORATORS or txt.split('.')[-1] in \
                    HIDDEN_STATE_DECORATORS:
                self.fi.writes.add((('GLOBAL', '@' + txt), 'memo',
                                    self.fi.node.lineno))
        # mutable default arguments that the body mutates
        a = self.fi.node.args
        pos = a.posonlyargs + a.args
        for p, d in list(zip(pos[len(pos) - len(a.defaults):], a.defaults)) \
                + [(p, d) for p, d in zip(a.kwonlyargs, a.kw_defaults) if d]:
            if isinstance(d, (ast.List, ast.Dict, ast.Set)) or (
                    isinstance(d, ast.Call) and isinstance(d.func, ast.Name)
                    and d.func.id in ('list', 'dict', 'set', 'deque')):
                if any(o == ('PARAM', p.arg) for (o, w, l) in self.fi.writes):
                    self.fi.writes.add((('GLOBAL', 'default:' + p.arg),
                                        'mutable default', d.lineno))

    def copy_env(self):
        return {k: set(v) for k, v in self.env.items()}

    def join_env(self, other):
        for k, v in other.items():
            self.env.setdefault(k, set()).update(v)

    def exec_block(self, stmts):
        for st in stmts:
            self.exec_stmt(st)

    def exec_stmt(self, n):
        if isinstance(n, (ast.FunctionDef, ast.AsyncFunctionDef,
                          ast.ClassDef)):
            self.env[n.name] = {FRESH}
            for d in getattr(n, 'decorator_list', []):
                self.scan_expr(d)
            return
        if isinstance(n, ast.If):
            self.scan_expr(n.test)
            before = self.copy_env()
            self.exec_block(n.body)
            after_then = self.env
            self.env = before
            self.exec_block(n.orelse)
            self.join_env(after_then)
            return
        if isinstance(n, (ast.For, ast.AsyncFor, ast.While)):
            if isinstance(n, ast.While):
                self.scan_expr(n.test)
            else:
                self.scan_expr(n.iter)
            before = self.copy_env()
            for _ in range(3):
                if not isinstance(n, ast.While):
                    self.bind(n.target, self.elem_origins(n.iter),
                              strong=False)
                self.exec_block(n.body)
                if isinstance(n, ast.While):
                    self.scan_expr(n.test)
                self.join_env(before)
            self.exec_block(n.orelse)
            return
        if isinstance(n, ast.Try):
            before = self.copy_env()
            self.exec_block(n.body)
            self.join_env(before)
            after = self.copy_env()
            for h in n.handlers:
                self.env = {k: set(v) for k, v in after.items()}
                if h.name:
                    self.env[h.name] = {FRESH}
                self.exec_block(h.body)
                for k, v in self.env.items():
                    after.setdefault(k, set()).update(v)
            self.env = after
            self.exec_block(n.orelse)
            self.exec_block(n.finalbody)
            return
        if isinstance(n, (ast.With, ast.AsyncWith)):
            for it in n.items:
                self.scan_expr(it.context_expr)
                if it.optional_vars is not None:
                    self.bind(it.optional_vars, self.origins(
                        it.context_expr))
            self.exec_block(n.body)
            return
        if isinstance(n, ast.Assign):
            self.scan_expr(n.value)
            o = self.origins(n.value)
            for t in n.targets:
                if isinstance(t, ast.Name):
                    (self.scalar_names if _scalar_expr(n.value)
                     else self.nonscalar_names).add(t.id)
                if isinstance(t, (ast.Tuple, ast.List)) and isinstance(
                        n.value, (ast.Tuple, ast.List)) and len(
                            t.elts) == len(n.value.elts):
                    vals = [self.origins(vv) for vv in n.value.elts]
                    for tt, vv in zip(t.elts, vals):
                        self.bind(tt, vv)
                else:
                    self.bind(t, o)
                self.scan_target(t)
            return
        if isinstance(n, ast.AnnAssign):
            if n.value is not None:
                self.scan_expr(n.value)
                self.bind(n.target, self.origins(n.value))
            return
        if isinstance(n, ast.AugAssign):
            self.scan_expr(n.value)
            t = n.target
            if isinstance(t, ast.Name):
                # x += y mutates x in place when x is a mutable container;
                # an evidently scalar right-hand side means a rebind
                scalar_target = (t.id in self.scalar_names and
                                 t.id not in self.nonscalar_names)
                for o in self.origins(t):
                    if o != FRESH and not _scalar_expr(n.value) \
                            and not scalar_target:
                        self.fi.writes.add((o, 'augassign', n.lineno))
                if t.id in self.globals_declared:
                    self.fi.writes.add((('GLOBAL', t.id), 'rebind',
                                        n.lineno))
                elif t.id in self.nonlocals:
                    self.fi.writes.add((('NONLOCAL', t.id), 'rebind',
                                        n.lineno))
            else:
                self.bind(t, {FRESH})
                self.scan_target(t)
            return
        if isinstance(n, ast.Delete):
            for t in n.targets:
                if isinstance(t, (ast.Attribute, ast.Subscript)):
                    self.scan_expr(t.value)
                    for o in self.origins(t.value):
                        self.fi.writes.add((o, 'del', t.lineno))
            return
        if isinstance(n, ast.Return):
            if n.value is not None:
                self.scan_expr(n.value)
                new = self.origins(n.value) - self.fi.ret
                if new:
                    self.fi.ret |= new
                    self.program.changed = True
            return
        for ch in ast.iter_child_nodes(n):
            if isinstance(ch, ast.expr):
                self.scan_expr(ch)
            elif isinstance(ch, ast.stmt):
                self.exec_stmt(ch)

    def scan_target(self, t):
        for ch in ast.walk(t):
            if isinstance(ch, ast.Call):
                self.visit_call(ch)

    def scan_expr(self, e):
        """Effects inside an expression: calls, walrus, comprehensions."""
        stack = [e]
        while stack:
            x = stack.pop()
            if isinstance(x, (ast.Lambda, ast.FunctionDef)):
                continue
            if isinstance(x, ast.Call):
                self.visit_call(x)
            elif isinstance(x, ast.NamedExpr):
                self.bind(x.target, self.origins(x.value))
            elif isinstance(x, ast.comprehension):
                self.bind(x.target, self.elem_origins(x.iter), strong=False)
            elif isinstance(x, (ast.Yield, ast.YieldFrom)) and x.value \
                    is not None:
                new = self.origins(x.value) - self.fi.ret
                if new:
                    self.fi.ret |= new
                    self.program.changed = True
            stack.extend(ast.iter_child_nodes(x))

    def elem_origins(self, it):
        """Elements of a container share its origin (deep reach)."""
        if isinstance(it, ast.Call):
            f = it.func
            nm = f.id if isinstance(f, ast.Name) else (
                f.attr if isinstance(f, ast.Attribute) else '')
            if nm in ('enumerate', 'zip', 'reversed', 'sorted', 'iter',
                      'list', 'tuple', 'chain', 'islice') and it.args:
                out = set()
                for a in it.args:
                    out |= self.elem_origins(a)
                return out
            if nm in ('items', 'values', 'keys') and isinstance(
                    f, ast.Attribute):
                return self.origins(f.value)
            if nm == 'range':
                return {FRESH}
        return self.origins(it)

    def visit_call(self, e):
        f = e.func
        if isinstance(f, ast.Name) and f.id in FAIL_CLOSED_CALLS:
            self.fi.writes.add((UNKNOWN, f.id + '()', e.lineno))
        if isinstance(f, ast.Attribute) and f.attr in MUTATORS:
            recv = self.origins(f.value)
            cands = self.program.resolve_call(self.fi, e)
            if not cands:
                for o in recv:
                    self.fi.writes.add((o, '.%s()' % f.attr, e.lineno))
        if isinstance(f, ast.Attribute) and f.attr == '__dict__':
            self.fi.writes.add((UNKNOWN, '__dict__', e.lineno))
        cands = self.program.resolve_call(self.fi, e)
        if isinstance(f, ast.Name) and (f.id in self.local_names
                                        or f.id in self.enclosing):
            tgt = self.program.local_function(self.fi, f.id)
            cands = [tgt] if tgt is not None else []
        for c in cands:
            for (o, what, line) in list(c.writes):
                for o2 in self.subst(o, c, e):
                    item = (o2, 'via %s' % c.qualname, e.lineno)
                    if item not in self.fi.writes and o2 != FRESH:
                        self.fi.writes.add(item)
                        self.program.changed = True


def _scalar_expr(e):
    if isinstance(e, ast.Constant):
        return True
    if isinstance(e, ast.Call) and isinstance(e.func, ast.Name) and \
            e.func.id in ('len', 'int', 'str', 'float', 'abs', 'ord', 'hash',
                          'bool', 'next', 'min', 'max', 'sum'):
        return True
    if isinstance(e, ast.Attribute) and isinstance(e.value, ast.Name) and \
            e.value.id in ('re', 'string', 'string_module', 'sys', 'math'):
        return True
    if isinstance(e, ast.BinOp):
        return _scalar_expr(e.left) and _scalar_expr(e.right)
    if isinstance(e, ast.UnaryOp):
        return _scalar_expr(e.operand)
    if isinstance(e, ast.JoinedStr):
        return True
    return False


def _is_static(node):
    return any(ast.unparse(d) in ('staticmethod', 'classmethod')
               for d in node.decorator_list) and any(
                   ast.unparse(d) == 'staticmethod'
                   for d in node.decorator_list)


def _own_nodes(fnode):
    """Nodes of a function body excluding nested function/class bodies (the
    nested def statement itself is included)."""
    stack = list(fnode.body)
    for d in fnode.args.defaults + fnode.args.kw_defaults:
        if d is not None:
            stack.append(d)
    while stack:
        n = stack.pop()
        yield n
        if isinstance(n, (ast.FunctionDef, ast.AsyncFunctionDef,
                          ast.ClassDef, ast.Lambda)):
            continue
        stack.extend(ast.iter_child_nodes(n))


def _actual_for(callee, call, pname):
    params = list(callee.params)
    offset = 0
    if callee.cls and params and params[0] in ('self', 'this', 'cls') and \
            not _is_static(callee.node):
        offset = 1
    if pname in params:
        i = params.index(pname) - offset
        if 0 <= i < len(call.args) and not any(
                isinstance(a, ast.Starred) for a in call.args[:i + 1]):
            return call.args[i]
    for k in call.keywords:
        if k.arg == pname:
            return k.value
    return None


class Program:
    def __init__(self, repo, modules):
        self.repo = repo
        self.funcs = {}         # key -> FuncInfo
        self.by_name = {}       # bare name -> [FuncInfo]
        self.methods = {}       # method name -> [FuncInfo]
        self.module_imports = {}
        self.module_globals = {}
        self.module_trees = {}
        for m in modules:
            self.load(m)
        self.solve()

    def load(self, modname):
        path = os.path.join(self.repo, *modname.split('.')) + '.py'
        if not os.path.exists(path):
            path = os.path.join(self.repo, *modname.split('.'),
                                '__init__.py')
        tree = ast.parse(open(path).read(), filename=path)
        self.module_trees[modname] = (path, tree)
        imports = {}
        gl = set()
        for n in tree.body:
            if isinstance(n, ast.Import):
                for a in n.names:
                    imports[a.asname or a.name.split('.')[0]] = a.name
            elif isinstance(n, ast.ImportFrom):
                for a in n.names:
                    imports[a.asname or a.name] = (n.module or '') + '.' + \
                        a.name
            elif isinstance(n, ast.Assign):
                for t in n.targets:
                    if isinstance(t, ast.Name):
                        gl.add(t.id)
        self.module_imports[modname] = imports
        self.module_globals[modname] = gl
        self.collect(modname, tree.body, '', None, set())

    def collect(self, modname, body, prefix, cls, enclosing):
        for n in body:
            if isinstance(n, ast.FunctionDef):
                q = prefix + n.name
                fi = FuncInfo(modname, q, n, cls)
                fi.enclosing_locals = set(enclosing)
                self.funcs[fi.key] = fi
                self.by_name.setdefault(n.name, []).append(fi)
                if cls:
                    self.methods.setdefault(n.name, []).append(fi)
                inner = set(enclosing)
                a = n.args
                inner |= {p.arg for p in a.posonlyargs + a.args +
                          a.kwonlyargs}
                if a.vararg:
                    inner.add(a.vararg.arg)
                if a.kwarg:
                    inner.add(a.kwarg.arg)
                for x in _own_nodes(n):
                    if isinstance(x, ast.Name) and isinstance(x.ctx,
                                                              ast.Store):
                        inner.add(x.id)
                    elif isinstance(x, ast.FunctionDef):
                        inner.add(x.name)
                nested = [x for x in _own_nodes(n) if isinstance(
                    x, (ast.FunctionDef, ast.ClassDef))]
                self.collect(modname, nested, q + '.<locals>.', None, inner)
            elif isinstance(n, ast.ClassDef):
                self.collect(modname, n.body, prefix + n.name + '.',
                             n.name, enclosing)
            elif isinstance(n, (ast.If, ast.Try)):
                self.collect(modname, n.body, prefix, cls, enclosing)

    def stdlib_modules(self, fi):
        return {k for k, v in self.module_imports.get(fi.module, {}).items()
                if isinstance(v, str) and not v.startswith('yaql')}

    def local_function(self, fi, name):
        k = '%s.%s.<locals>.%s' % (fi.module, fi.qualname, name)
        if k in self.funcs:
            return self.funcs[k]
        # closure defined in an enclosing function
        q = fi.qualname
        while '.<locals>.' in q:
            q = q.rsplit('.<locals>.', 1)[0]
            k = '%s.%s.<locals>.%s' % (fi.module, q, name)
            if k in self.funcs:
                return self.funcs[k]
        return None

    def resolve_call(self, fi, e):
        f = e.func
        if isinstance(f, ast.Name):
            k = '%s.%s' % (fi.module, f.id)
            if k in self.funcs:
                return [self.funcs[k]]
            imp = self.module_imports.get(fi.module, {}).get(f.id)
            if isinstance(imp, str) and imp in self.funcs:
                return [self.funcs[imp]]
            # class constructor
            k2 = '%s.%s.__init__' % (fi.module, f.id)
            if k2 in self.funcs:
                return [self.funcs[k2]]
            return []
        if isinstance(f, ast.Attribute):
            if isinstance(f.value, ast.Name):
                imp = self.module_imports.get(fi.module, {}).get(f.value.id)
                if isinstance(imp, str):
                    k = '%s.%s' % (imp, f.attr)
                    if k in self.funcs:
                        return [self.funcs[k]]
                    k2 = '%s.%s.__init__' % (imp, f.attr)
                    if k2 in self.funcs:
                        return [self.funcs[k2]]
                    if not imp.startswith('yaql'):
                        return []
            # self.method(): resolved inside the class (and, failing that,
            # by name among the classes of the same module). Calls through
            # other receivers are NOT followed (A7): the callee's own frame
            # obligation covers its writes to SELF; writes to its arguments
            # are visible only for exactly resolved callees.
            if isinstance(f.value, ast.Name) and f.value.id in (
                    'self', 'this', 'cls') and fi.cls:
                k = '%s.%s.%s' % (fi.module, fi.cls, f.attr)
                if k in self.funcs:
                    return [self.funcs[k]]
                return [m for m in self.methods.get(f.attr, [])
                        if m.module == fi.module]
            # a method name defined by exactly one class of the program
            ms = self.methods.get(f.attr, [])
            if len(ms) == 1 and f.attr not in MUTATORS:
                return list(ms)
            return []
        return []

    def solve(self):
        for _ in range(12):
            self.changed = False
            for fi in self.funcs.values():
                before = len(fi.writes)
                Analyzer(fi, self).run()
                if len(fi.writes) != before:
                    self.changed = True
            if not self.changed:
                break


def check(program, spec, scope):
    """spec: key -> list of allowed 'ORIGIN' / 'ORIGIN what' patterns.
    scope: predicate on FuncInfo. Returns list of (fi, violations, allowed)."""
    out = []
    for key, fi in sorted(program.funcs.items()):
        if not scope(fi):
            continue
        allowed = spec.get(key, [])
        bad = []
        for (o, what, line) in sorted(fi.writes, key=lambda w: (w[2], str(w))):
            if o == FRESH:
                continue
            if fi.qualname.endswith('__init__') and o == ('SELF',):
                continue
            tag = fmt(o)
            if any(a == tag or a == '*' or (a.endswith('*') and
                                            tag.startswith(a[:-1]))
                   for a in allowed):
                continue
            bad.append((tag, what, line))
        out.append((fi, bad, allowed))
    return out
