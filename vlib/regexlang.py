"""Python regular expressions (the subset the lexer uses) as z3 regular
languages, for language-inclusion / emptiness obligations.

Translation of re._parser's parse tree.  Approximations, all on the safe
side for the uses made of them (the translated language CONTAINS the real
one):
  * `\\b` is dropped (it only restricts by the surrounding text);
  * `\\w`, `\\d`, `\\s` in UNICODE mode: the ASCII members plus EVERY
    non-ASCII code point;
  * a leading negative lookahead `(?!lit)` is exact (complement of lit.*);
    lookarounds elsewhere are unsupported.
"""
import re
import z3

try:
    from re import _parser as sre_parse
    from re import _constants as sre_c
except ImportError:      # python < 3.11
    import sre_parse
    import sre_constants as sre_c


class Unsupported(Exception):
    pass


def _chr(c):
    return z3.Re(z3.StringVal(chr(c))) if c < 128 or True else None


def _range(lo, hi):
    return z3.Range(_s(lo), _s(hi))


def _s(c):
    # z3 string literals: escape non-printables through \\u{...}
    return z3.StringVal(chr(c))


ANYCHAR = z3.AllChar(z3.ReSort(z3.StringSort()))
NONASCII = z3.Range(z3.StringVal(chr(128)), z3.StringVal(chr(0x2FFFF)))


def _category(cat):
    word = z3.Union(z3.Range('a', 'z'), z3.Range('A', 'Z'),
                    z3.Range('0', '9'), z3.Re('_'), NONASCII)
    digit = z3.Union(z3.Range('0', '9'), NONASCII)
    space = z3.Union(*[z3.Re(z3.StringVal(c)) for c in ' \t\n\r\x0b\x0c'] +
                     [NONASCII])
    name = str(cat)
    if name.endswith('CATEGORY_WORD'):
        return word, False
    if name.endswith('CATEGORY_NOT_WORD'):
        # exact complement over ASCII; non-ASCII non-word chars exist too
        return z3.Union(z3.Complement(z3.Union(
            z3.Range('a', 'z'), z3.Range('A', 'Z'), z3.Range('0', '9'),
            z3.Re('_'), NONASCII)) & ANYCHAR, NONASCII), False
    if name.endswith('CATEGORY_DIGIT'):
        return digit, False
    if name.endswith('CATEGORY_NOT_DIGIT'):
        return z3.Union(z3.Intersect(z3.Complement(z3.Range('0', '9')),
                                     ANYCHAR)), False
    if name.endswith('CATEGORY_SPACE'):
        return space, False
    raise Unsupported('category %s' % name)


def _in(items, ascii_only_negation=False):
    neg = False
    parts = []
    cats = []
    for op, av in items:
        n = str(op)
        if n == 'NEGATE':
            neg = True
        elif n == 'LITERAL':
            parts.append(z3.Re(_s(av)))
        elif n == 'RANGE':
            parts.append(_range(av[0], av[1]))
        elif n == 'CATEGORY':
            cats.append(av)
        else:
            raise Unsupported('class item %s' % n)
    if not neg:
        for c in cats:
            parts.append(_category(c)[0])
        return z3.Union(*parts) if len(parts) > 1 else parts[0]
    # negated class [^...]: a char that is in none of the parts. For
    # categories inside a negated class use the EXACT ASCII part and allow
    # every non-ASCII char (over-approximation).
    excl = list(parts)
    for c in cats:
        name = str(c)
        if name.endswith('CATEGORY_NOT_WORD'):      # [^\W...] = word chars
            return _neg_nonword(excl)
        if name.endswith('CATEGORY_DIGIT'):
            excl.append(z3.Range('0', '9'))
        elif name.endswith('CATEGORY_WORD'):
            excl += [z3.Range('a', 'z'), z3.Range('A', 'Z'),
                     z3.Range('0', '9'), z3.Re('_')]
        elif name.endswith('CATEGORY_SPACE'):
            excl += [z3.Re(z3.StringVal(c2)) for c2 in ' \t\n\r\x0b\x0c']
        else:
            raise Unsupported('negated category %s' % name)
    u = z3.Union(*excl) if len(excl) > 1 else excl[0]
    return z3.Intersect(z3.Complement(u), ANYCHAR)


def _neg_nonword(extra_excl):
    """[^\\W<extra>] : word characters except the extra exclusions."""
    word = z3.Union(z3.Range('a', 'z'), z3.Range('A', 'Z'),
                    z3.Range('0', '9'), z3.Re('_'), NONASCII)
    if not extra_excl:
        return word
    u = z3.Union(*extra_excl) if len(extra_excl) > 1 else extra_excl[0]
    return z3.Intersect(word, z3.Complement(u))


def _seq(items):
    out = []
    lead_not = []
    for i, (op, av) in enumerate(items):
        n = str(op)
        if n == 'LITERAL':
            out.append(z3.Re(_s(av)))
        elif n == 'NOT_LITERAL':
            out.append(z3.Intersect(z3.Complement(z3.Re(_s(av))), ANYCHAR))
        elif n == 'ANY':
            out.append(z3.Intersect(z3.Complement(z3.Re('\n')), ANYCHAR))
        elif n == 'IN':
            out.append(_in(av))
        elif n == 'BRANCH':
            alts = [_seq(list(a)) for a in av[1]]
            out.append(z3.Union(*alts) if len(alts) > 1 else alts[0])
        elif n == 'SUBPATTERN':
            out.append(_seq(list(av[-1])))
        elif n in ('MAX_REPEAT', 'MIN_REPEAT'):
            lo, hi, sub = av
            r = _seq(list(sub))
            if hi == sre_c.MAXREPEAT:
                if lo == 0:
                    out.append(z3.Star(r))
                elif lo == 1:
                    out.append(z3.Plus(r))
                else:
                    out.append(z3.Concat(z3.Loop(r, lo, lo), z3.Star(r)))
            else:
                out.append(z3.Loop(r, lo, hi) if (lo, hi) != (0, 1)
                           else z3.Option(r))
        elif n == 'AT':
            continue        # \b, ^, $: see module docstring
        elif n == 'ASSERT_NOT':
            direction, sub = av
            if direction != 1 or out:
                raise Unsupported('lookaround not at the start')
            lead_not.append(_seq(list(sub)))
        else:
            raise Unsupported('regex op %s' % n)
    if not out:
        r = z3.Re('')
    elif len(out) == 1:
        r = out[0]
    else:
        r = z3.Concat(*out)
    for ln in lead_not:
        r = z3.Intersect(r, z3.Complement(z3.Concat(
            ln, z3.Star(ANYCHAR))))
    return r


def to_z3(pattern, flags=re.UNICODE | re.VERBOSE):
    tree = sre_parse.parse(pattern, flags)
    return _seq(list(tree))


def decide_empty(regex, timeout_ms=20000):
    """Is L(regex) empty?  returns ('proved'|'failed'|'unknown', witness)"""
    s = z3.Solver()
    s.set('timeout', timeout_ms)
    x = z3.String('w')
    s.add(z3.InRe(x, regex))
    r = s.check()
    if r == z3.unsat:
        return 'proved', None
    if r == z3.sat:
        return 'failed', s.model()[x].as_string()
    return 'unknown', None


def prefix_excluded(pattern, prefix):
    try:
        lang = to_z3(pattern)
    except Unsupported as e:
        return 'unknown', 'regex translation: %s' % e
    bad = z3.Concat(z3.Re(prefix), z3.Star(ANYCHAR))
    st, w = decide_empty(z3.Intersect(lang, bad))
    return st, (None if st == 'proved' else 'witness: %r' % w)


def included(pattern, safe_regex, flags=re.UNICODE | re.VERBOSE,
             extra=None):
    """L(pattern) [intersected with extra] subset of L(safe_regex)?"""
    try:
        lang = to_z3(pattern, flags)
    except Unsupported as e:
        return 'unknown', 'regex translation: %s' % e
    if extra is not None:
        lang = z3.Intersect(lang, extra)
    st, w = decide_empty(z3.Intersect(lang, z3.Complement(safe_regex)))
    return st, (None if st == 'proved' else 'witness: %r' % w)


# ------------------------------------------------- structural checks ----

def first_char_classes(pattern, flags=re.UNICODE | re.VERBOSE):
    """For every starred/plus group whose body is an alternation, the list
    of alternatives (as sre item lists)."""
    tree = sre_parse.parse(pattern, flags)
    out = []

    def walk(items):
        for op, av in items:
            n = str(op)
            if n in ('MAX_REPEAT', 'MIN_REPEAT'):
                lo, hi, sub = av
                alts = _alternatives(list(sub))
                if hi == sre_c.MAXREPEAT and len(alts) > 1:
                    out.append(alts)
                walk(list(sub))
            elif n == 'SUBPATTERN':
                walk(list(av[-1]))
            elif n == 'BRANCH':
                for a in av[1]:
                    walk(list(a))
    walk(list(tree))
    return out


def _alternatives(items):
    if len(items) == 1:
        op, av = items[0]
        if str(op) == 'SUBPATTERN':
            return _alternatives(list(av[-1]))
        if str(op) == 'BRANCH':
            return [list(a) for a in av[1]]
        if str(op) == 'IN':
            return [items]
    return [items]


def ambiguous_repetitions(pattern):
    """Alternatives of a repeated group that can both start a match at the
    same position with the same first character (=> exponential
    backtracking on a failing match). Returns list of descriptions."""
    bad = []
    for alts in first_char_classes(pattern):
        firsts = []
        for a in alts:
            r = _seq(a)
            # first character language: { c | c.w in L(r) }
            firsts.append(r)
        for i in range(len(firsts)):
            for j in range(i + 1, len(firsts)):
                x = z3.String('c')
                s = z3.Solver()
                s.set('timeout', 10000)
                s.add(z3.Length(x) == 1)
                s.add(z3.InRe(x, z3.Intersect(
                    _prefix1(firsts[i]), _prefix1(firsts[j]))))
                if s.check() != z3.unsat:
                    bad.append('alternatives %d and %d of a repeated group '
                               'share a first character' % (i + 1, j + 1))
    return bad


def overlapping_repetitions(pattern, flags=re.UNICODE | re.VERBOSE):
    """Unbounded repetitions B* / B+ whose body overlaps itself: some word
    of L(B) is also the concatenation of two non-empty words of L(B) - the
    same text is then one iteration or two, and a failing match tries every
    split (the (x+)* shape: exponential backtracking). Returns
    (descriptions, undecided) ."""
    tree = sre_parse.parse(pattern, flags)
    bad, unknown = [], []

    def walk(items):
        for op, av in items:
            n = str(op)
            if n in ('MAX_REPEAT', 'MIN_REPEAT'):
                lo, hi, sub = av
                if hi == sre_c.MAXREPEAT:
                    body = _seq(list(sub))
                    ne = z3.Intersect(body, z3.Concat(
                        ANYCHAR, z3.Star(ANYCHAR)))
                    st, w = decide_empty(z3.Intersect(
                        z3.Concat(ne, ne), ne))
                    if st == 'failed':
                        bad.append('the body of an unbounded repetition '
                                   'matches %r both as one iteration and '
                                   'as two' % (w,))
                    elif st == 'unknown':
                        unknown.append('undecided for one repetition')
                walk(list(sub))
            elif n == 'SUBPATTERN':
                walk(list(av[-1]))
            elif n == 'BRANCH':
                for a in av[1]:
                    walk(list(a))
    walk(list(tree))
    return bad, unknown


def _prefix1(r):
    """{ first character of w | w in L(r), w non-empty } as a regex over
    single characters: c such that c.Sigma* intersects L(r)."""
    # z3 has no quotient operator; characterise through membership:
    # x in prefix1(r) iff len(x)==1 and exists w. x.w in L(r).  We return the
    # regex (r intersected with AnyChar.Sigma*) projected by a solver query
    # in ambiguous_repetitions; here, over-approximate with the language of
    # single characters that can start r by intersecting r's unrolling.
    return _first(r)


def _first(r):
    # L(r) restricted to its first character, computed structurally
    k = r.decl().kind()
    ch = r.children()
    if k == z3.Z3_OP_SEQ_TO_RE:
        s = ch[0]
        if z3.is_string_value(s):
            v = s.as_string()
            return z3.Re(z3.StringVal(v[0])) if v else None
        return ANYCHAR
    if k == z3.Z3_OP_RE_RANGE or k == z3.Z3_OP_RE_FULL_CHAR_SET:
        return r
    if k == z3.Z3_OP_RE_UNION:
        parts = [p for p in (_first(c) for c in ch) if p is not None]
        return z3.Union(*parts) if len(parts) > 1 else (
            parts[0] if parts else None)
    if k == z3.Z3_OP_RE_CONCAT:
        return _first(ch[0])
    if k in (z3.Z3_OP_RE_STAR, z3.Z3_OP_RE_PLUS, z3.Z3_OP_RE_OPTION,
             z3.Z3_OP_RE_LOOP):
        return _first(ch[0])
    if k == z3.Z3_OP_RE_INTERSECT:
        if any(c.decl().kind() == z3.Z3_OP_RE_FULL_CHAR_SET for c in ch):
            return r        # a character class: its own first-char language
        parts = [p for p in (_first(c) for c in ch) if p is not None]
        return z3.Intersect(*parts) if len(parts) > 1 else parts[0]
    if k == z3.Z3_OP_RE_COMPLEMENT:
        return ANYCHAR
    return ANYCHAR
