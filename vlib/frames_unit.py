"""Unit wrapping the frame checker: one obligation per function in scope."""
import ast
import time

from . import core, frames


def _only_called_locally(outer_node, name):
    """Every use of the nested function `name` inside `outer_node` is a
    direct call name(...)."""
    called = set()
    for n in ast.walk(outer_node):
        if isinstance(n, ast.Call) and isinstance(n.func, ast.Name) and \
                n.func.id == name:
            called.add(id(n.func))
    for n in ast.walk(outer_node):
        if isinstance(n, ast.Name) and n.id == name and isinstance(
                n.ctx, ast.Load) and id(n) not in called:
            return False
    return True


def frame_unit(pid, extra=None):
    def run(ctx):
        from contracts import frames_spec as FS
        t0 = time.time()
        P = frames.Program(ctx.repo, FS.MODULES)
        scope = FS.SCOPES[pid]
        out, functions = [], []
        for key, fi in sorted(P.funcs.items()):
            if not scope(fi):
                continue
            allowed = FS.modifies(key, fi.qualname)
            bad = []
            for (o, what, line) in sorted(fi.writes,
                                          key=lambda w: (w[2], str(w))):
                if o == frames.FRESH:
                    continue
                if fi.qualname.split('.')[-1] == '__init__' and \
                        o == ('SELF',):
                    continue
                if o[0] == 'NONLOCAL' and what != 'rebind' and \
                        '.<locals>.' in fi.qualname:
                    # a closure writing an object that is FRESH in its
                    # enclosing activation: confined to that activation
                    outer = P.funcs.get('%s.%s' % (
                        fi.module, fi.qualname.rsplit('.<locals>.', 1)[0]))
                    if outer is not None and _only_called_locally(
                            outer.node, fi.node.name):
                        # (a closure that ESCAPES - returned, stored, passed
                        # on - keeps the object alive across its calls: that
                        # is shared state and stays an obligation)
                        oo = outer.all_origins.get(o[1])
                        if oo and all(x == frames.FRESH for x in oo):
                            continue
                tag = frames.fmt(o)
                if tag in allowed or (tag + ':' + what) in allowed or (
                        what.startswith('via ') and
                        (tag + ':via') in allowed):
                    continue
                bad.append('%s %s (line %d)' % (tag, what, line))
            definite = [b for b in bad if not b.startswith('UNKNOWN')]
            st = 'proved' if not bad else ('failed' if definite
                                           else 'unknown')
            out.append(core.ob(
                'frame:%s' % key, st, 'frame', 'frames', 0.0,
                function=key, line=fi.node.lineno,
                text='writes(%s) <= {%s}' % (fi.qualname,
                                             ', '.join(allowed) or 'FRESH'),
                detail=None if not bad else
                'writes outside the modifies clause: ' + '; '.join(bad)))
            functions.append(key)
        # inventory of module-/class-level mutable state
        for mod, (path, tree) in sorted(P.module_trees.items()):
            fake = type('F', (), dict(module=mod, cls=None, qualname='',
                                      key=mod))
            if not any(scope(f) for f in P.funcs.values()
                       if f.module == mod):
                continue
            found = []
            for n, owner in _module_level_assigns(tree):
                if _is_mutable_ctor(n.value):
                    for t in n.targets:
                        if isinstance(t, ast.Name):
                            k = '%s.%s%s' % (mod, owner, t.id)
                            if k not in FS.MUTABLE_GLOBALS:
                                found.append('%s (line %d)' % (k, n.lineno))
            out.append(core.ob(
                'globals:%s' % mod, 'proved' if not found else 'failed',
                'frame', 'frames', 0.0, function=mod,
                text='no module-/class-level mutable object outside the '
                     'reviewed inventory',
                detail=None if not found else
                'new shared mutable state: ' + '; '.join(found)))
        if extra:
            out.extend(extra(ctx, P))
        return dict(obligations=out,
                    functions=[dict(function=f) for f in functions],
                    assumptions=[
                        'A7: heap writes are syntactically visible '
                        '(attribute/subscript stores, del, augmented '
                        'assignment, calls of mutating methods by name); '
                        'setattr/exec/eval/__dict__ fail closed',
                        'A8: disjoint write frames imply every interleaving '
                        'is equivalent to a sequential run (GIL atomicity of '
                        'single stores)',
                        'method calls through receivers other than self are '
                        'followed only when the method name is defined by '
                        'exactly one class of the program'],
                    trusted=['frames: origin rules (FRESH for literals, '
                             'comprehensions, constructors, copying '
                             'builtins/methods)'])
    return core.Unit('frames:' + pid, run, backend='frames')


def _module_level_assigns(tree):
    for n in tree.body:
        if isinstance(n, ast.Assign):
            yield n, ''
        elif isinstance(n, ast.ClassDef):
            for m in n.body:
                if isinstance(m, ast.Assign):
                    yield m, n.name + '.'


def _is_mutable_ctor(v):
    if isinstance(v, (ast.Dict, ast.List, ast.Set, ast.DictComp,
                      ast.ListComp, ast.SetComp)):
        return True
    if isinstance(v, ast.Call):
        f = v.func
        nm = f.id if isinstance(f, ast.Name) else (
            f.attr if isinstance(f, ast.Attribute) else '')
        return nm in ('dict', 'list', 'set', 'deque', 'defaultdict',
                      'OrderedDict', 'WeakValueDictionary', 'WeakKeyDictionary',
                      'Counter', 'bytearray', 'local', 'lru_cache')
    return False
