#!/bin/bash
# run every seeded change against the check of its property; table to stdout
cd /verif
run() { id=$1; out=$(timeout 1500 tools/mutcheck.sh $id 2>&1); rc=$(echo "$out" | grep -o "exit=[0-9]*" | head -1); first=$(echo "$out" | grep "^VIOLATION" | head -2 | sed 's/.*obligation=//' | tr '\n' ';'); echo "$id $rc $first"; }
export -f run
ls -d seeded/*/ | xargs -n1 basename | xargs -P 6 -I{} bash -c 'run {}' | sort
