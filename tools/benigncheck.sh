#!/bin/bash
# tools/benigncheck.sh <benign-id> [PID ...]: run checks against a scratch
# copy of /repo with benign/<id>/patch.diff applied; a VIOLATION here is a
# FALSE ALARM of the machinery.
id=$1; shift
pids="$@"; [ -z "$pids" ] && pids=$(python3 -c "import json;print(json.load(open('/verif/benign/$id/meta.json'))['property'])")
d=$(mktemp -d /tmp/ben.XXXXXX)
cp -r /repo/yaql $d/yaql
( cd $d && patch -p1 -s < /verif/benign/$id/patch.diff ) || { echo "$id PATCH-FAILED"; rm -rf $d; exit 9; }
for p in $pids; do
  out=$(VERIF_REPO=$d VERIF_EVIDENCE=$d/ev VERIF_OUT=$d/out /verif/check $p 2>&1); rc=$?
  echo "== $id on $p: exit=$rc"
  echo "$out" | grep -E "^VIOLATION|^UNDECIDED|^CHECKER" | cut -c1-260 | head -${MUT_LINES:-6}
done
rm -rf $d
