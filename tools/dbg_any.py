import sys
sys.path.insert(0,'/verif'); sys.path.insert(0,'/verif/.deps')
from vlib.pyvc.verify import *
from vlib.pyvc.world import World
import importlib
mod = importlib.import_module(sys.argv[1])
cs = getattr(mod, sys.argv[2])()
setup = getattr(mod, sys.argv[3]) if sys.argv[3] != '-' else None
flt = sys.argv[4] if len(sys.argv)>4 else ''
repo = sys.argv[5] if len(sys.argv)>5 else '/repo'
for c in cs:
    if flt not in c.short: continue
    w = World(repo)
    if setup: setup(w)
    r = verify_function(w, c)
    print('==', c.short, 'OK' if r.ok else 'NOT OK', 'paths', r.paths, '%.2fs'%r.seconds)
    if r.error: print(r.error)
    if r.undecided: print('UNDECIDED', r.undecided)
    for o in r.obligations:
        if o.status!='proved': print('  ', o.name, o.status, getattr(o,'text',''), o.detail or '', o.model)
