#!/usr/bin/env python3
"""Record how every local of every function under a loop contract is first
bound on the CURRENT tree (run after contracts are written / the tree is
repaired): contracts/_fingerprints.json."""
import importlib
import json
import os
import sys
sys.path.insert(0, '/verif')
sys.path.insert(0, '/verif/.deps')
from vlib.pyvc.world import World
from vlib.pyvc import fingerprints

out = {}
w = World(os.environ.get('VERIF_REPO', '/repo'))
for f in sorted(os.listdir('/verif/contracts')):
    if not f.endswith('.py') or f.startswith('_'):
        continue
    m = importlib.import_module('contracts.' + f[:-3])
    for fn in dir(m):
        if not fn.endswith('contracts') or not callable(getattr(m, fn)):
            continue
        try:
            try:
                cs = getattr(m, fn)()
            except TypeError:
                cs = getattr(m, fn)('quick')
        except Exception as e:      # noqa
            print('skip', f, fn, e)
            continue
        for c in cs:
            if isinstance(c, tuple):
                c = c[0]
            if not getattr(c, 'loops', None) and not (
                    getattr(c, 'gen_form', None) or {}).get('loops'):
                continue
            try:
                c.resolve(w)
            except Exception:       # noqa
                continue
            if c.fn_node is not None:
                out[c.target] = fingerprints.of_function(c.fn_node)
json.dump(out, open('/verif/contracts/_fingerprints.json', 'w'), indent=1,
          sort_keys=True)
print(len(out), 'functions')
