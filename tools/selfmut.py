#!/venv/bin/python
"""Engine self-test: for every contract that has a native twin, mutate the
REAL target function (comparison flips, +-1 on integer constants, swapped
operands, negated conditions, dropped statements), run the contract unit on
a scratch copy and compare the two verdicts:

   deductive says HELD  and  the native bounded run finds a failing input
   =>  the symbolic engine (or the contract's invariants) is UNSOUND there.

Usage: tools/selfmut.py <contracts module> <factory> <setup> [filter]
Prints one line per mutant; exit 1 if an unsoundness witness was found."""
import ast
import copy
import os
import shutil
import sys
import tempfile

sys.path.insert(0, '/verif')
sys.path.insert(0, '/verif/.deps')
import importlib                                    # noqa: E402
from vlib import core                               # noqa: E402
from vlib.pyvc.unit import contract_unit, native_params   # noqa: E402
from vlib.pyvc.world import World, find_function    # noqa: E402

FLIP = {ast.Lt: ast.LtE, ast.LtE: ast.Lt, ast.Gt: ast.GtE, ast.GtE: ast.Gt,
        ast.Eq: ast.NotEq, ast.NotEq: ast.Eq, ast.Is: ast.IsNot,
        ast.IsNot: ast.Is, ast.In: ast.NotIn, ast.NotIn: ast.In}


def mutants(fn_node):
    """Yield (description, mutated copy of fn_node)."""
    nodes = list(ast.walk(fn_node))
    for i, n in enumerate(nodes):
        if isinstance(n, ast.Compare):
            for j, op in enumerate(n.ops):
                if type(op) in FLIP:
                    m = copy.deepcopy(fn_node)
                    t = list(ast.walk(m))[i]
                    t.ops[j] = FLIP[type(op)]()
                    yield 'line %d: %s -> %s' % (
                        n.lineno, type(op).__name__,
                        FLIP[type(op)].__name__), m
        if isinstance(n, ast.Constant) and isinstance(n.value, int) \
                and not isinstance(n.value, bool):
            for d in (1, -1):
                m = copy.deepcopy(fn_node)
                t = list(ast.walk(m))[i]
                t.value = n.value + d
                yield 'line %d: %d -> %d' % (n.lineno, n.value,
                                             n.value + d), m
        if isinstance(n, ast.BinOp) and isinstance(
                n.op, (ast.Add, ast.Sub)):
            m = copy.deepcopy(fn_node)
            t = list(ast.walk(m))[i]
            t.op = ast.Sub() if isinstance(n.op, ast.Add) else ast.Add()
            yield 'line %d: + <-> -' % n.lineno, m
        if isinstance(n, ast.If):
            m = copy.deepcopy(fn_node)
            t = list(ast.walk(m))[i]
            t.test = ast.UnaryOp(op=ast.Not(), operand=t.test)
            yield 'line %d: negated if' % n.lineno, m
        if isinstance(n, (ast.BoolOp,)) and len(n.values) == 2:
            m = copy.deepcopy(fn_node)
            t = list(ast.walk(m))[i]
            t.op = ast.Or() if isinstance(n.op, ast.And) else ast.And()
            yield 'line %d: and <-> or' % n.lineno, m


def main():
    modname, factory, setup = sys.argv[1:4]
    flt = sys.argv[4] if len(sys.argv) > 4 else ''
    mod = importlib.import_module(modname)
    st = getattr(mod, setup) if setup != '-' else None
    witnesses = 0
    ctx = core.Ctx('SELF', 'quick', 0)
    for c in getattr(mod, factory)():
        if flt not in c.short:
            continue
        w = World('/repo')
        if st:
            st(w)
        try:
            c.resolve(w)
        except LookupError:
            continue
        if native_params(c) is None:
            continue
        path = c.module.path
        src = open(path).read()
        tree = ast.parse(src)
        fn = find_function(type('M', (), dict(tree=tree, top=None))(),
                           c.qualname) if False else None
        # locate the function node in a fresh parse by position
        target = [n for n in ast.walk(tree) if isinstance(
            n, (ast.FunctionDef,)) and n.lineno == c.fn_node.lineno
            and n.name == c.fn_node.name][0]
        lines = src.split('\n')
        seen = 0
        for desc, mnode in mutants(target):
            seen += 1
            if seen > int(os.environ.get('SELFMUT_MAX', '12')):
                break
            mnode.decorator_list = target.decorator_list
            new_src = ast.unparse(mnode)
            indent = ' ' * target.col_offset
            new_lines = [indent + ln if ln else ln
                         for ln in new_src.split('\n')]
            first = min([target.lineno] + [d.lineno for d in
                                           target.decorator_list])
            out = lines[:first - 1] + new_lines + lines[target.end_lineno:]
            d = tempfile.mkdtemp(prefix='selfmut.')
            try:
                shutil.copytree('/repo/yaql', os.path.join(d, 'yaql'))
                rel = os.path.relpath(path, '/repo')
                open(os.path.join(d, rel), 'w').write('\n'.join(out))
                ctx.repo = d
                c2 = copy.copy(c)
                c2.module = c2.fn_node = None
                c2._gen_applied = False
                res = contract_unit(c2, world_setup=st).run(ctx)
                obs = res['obligations']
                ded = [o for o in obs if not o.get('bounded')]
                bnd = [o for o in obs if o.get('bounded')]
                ded_ok = all(o['status'] == 'proved' for o in ded)
                bnd_bad = [o for o in bnd if o['status'] == 'failed']
                verdict = 'both-held' if ded_ok and not bnd_bad else (
                    'UNSOUND' if ded_ok and bnd_bad else (
                        'caught' if not ded_ok else '?'))
                if verdict == 'UNSOUND':
                    witnesses += 1
                print('%-44s %-34s %s%s' % (
                    c.short[:44], desc[:34], verdict,
                    ('  input=%s' % (bnd_bad[0].get('model'),))
                    if bnd_bad and verdict == 'UNSOUND' else ''))
                sys.stdout.flush()
            finally:
                shutil.rmtree(d, ignore_errors=True)
    print('witnesses of unsoundness: %d' % witnesses)
    return 1 if witnesses else 0


if __name__ == '__main__':
    sys.exit(main())
