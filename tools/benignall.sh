#!/bin/bash
# run every behaviour-preserving refactoring (benign/<id>) against the check
# of its property: exit=1 anywhere is a FALSE ALARM of the machinery
cd /verif
run() { id=$1; out=$(timeout 1500 tools/benigncheck.sh $id 2>&1); rc=$(echo "$out" | grep -o "exit=[0-9]*" | head -1); first=$(echo "$out" | grep -E "^VIOLATION|^UNDECIDED" | head -1 | cut -c1-160); echo "$id $rc $first"; }
export -f run
ls -d benign/*/ | xargs -n1 basename | xargs -P 6 -I{} bash -c 'run {}' | sort
