#!/bin/bash
# run every claimed check (quick) on the current tree, 5 at a time (each check
# already uses all cores); summary
cd /verif
pids=$(python3 -c "import json;print(' '.join(c['property_id'] for c in json.load(open('MANIFEST.json'))['checks']))")
run() { p=$1; ./check $p > /tmp/runall_$p.log 2>&1; echo "$p exit=$? $(grep -E 'obligations,' /tmp/runall_$p.log | cut -c1-150)"; }
export -f run
echo $pids | tr ' ' '\n' | xargs -P 5 -I{} bash -c 'run {}'
