#!/bin/bash
# run every claimed check (quick) on the current tree, in parallel; summary
cd /verif
pids=$(python3 -c "import json;print(' '.join(c['property_id'] for c in json.load(open('MANIFEST.json'))['checks']))")
for p in $pids; do ( ./check $p > /tmp/runall_$p.log 2>&1; echo "$p exit=$? $(grep -E 'obligations,' /tmp/runall_$p.log | cut -c1-150)" ) & done; wait
