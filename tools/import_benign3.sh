#!/bin/bash
# tools/import_benign2.sh <Cxx> ...: second round of behaviour-preserving
# refactorings (/tmp/wt11/<Cxx>/_out/R{1,2,3}.*): kept under benign/<Cxx>-R<k>
# with k continuing after the ones already there.
for pid in "$@"; do
  base=$(ls -d /verif/benign/$pid-R* 2>/dev/null | wc -l)
  for k in 1 2 3; do
    src=/tmp/wt11/$pid/_out
    [ -f $src/R$k.patch.diff ] || { echo "$pid R$k: no patch"; continue; }
    n=$((base + k))
    d=$(mktemp -d /tmp/imp.XXXXXX)
    git -C /repo archive HEAD | tar -x -C $d
    ( cd $d && patch -p1 -s < $src/R$k.patch.diff ) || { echo "$pid-R$n PATCH-FAILED"; rm -rf $d; continue; }
    suite=$( cd $d && /venv/bin/python -m pytest -q -p no:cacheprovider -x 2>&1 | tail -1 )
    echo "$pid-R$n suite=[$suite]"
    if [[ "$suite" == *"366 passed"* ]]; then
      mkdir -p /verif/benign/$pid-R$n
      cp $src/R$k.patch.diff /verif/benign/$pid-R$n/patch.diff
      cp $src/R$k.meta.json /verif/benign/$pid-R$n/meta.json
    fi
    rm -rf $d
  done
done
