#!/bin/bash
# tools/import_round2.sh <Cxx> ...: confirm the round-4 changes delivered in
# /tmp/wt10/<Cxx>/_out/{A,B}.* against the CURRENT /repo tree (scratch copy,
# removed afterwards) and keep the confirmed ones as seeded/<Cxx>-C / -D.
for pid in "$@"; do
  for v in A B; do
    src=/tmp/wt10/$pid/_out
    [ -f $src/$v.patch.diff ] || { echo "$pid $v: no patch"; continue; }
    case $v in A) sid=$pid-O;; B) sid=$pid-P;; esac
    d=$(mktemp -d /tmp/imp.XXXXXX)
    git -C /repo archive HEAD | tar -x -C $d
    cp $src/$v.demo.py $d/_demo.py
    ( cd $d && PYTHONPATH=$d /venv/bin/python _demo.py >/dev/null 2>&1 ); clean=$?
    ( cd $d && patch -p1 -s < $src/$v.patch.diff ) || { echo "$sid PATCH-FAILED"; rm -rf $d; continue; }
    suite=$( cd $d && /venv/bin/python -m pytest -q -p no:cacheprovider -x 2>&1 | tail -1 )
    ( cd $d && PYTHONPATH=$d /venv/bin/python _demo.py >$d/_demo.out 2>&1 ); mut=$?
    echo "$sid suite=[$suite] demo_mut=$mut demo_clean=$clean"
    if [[ "$suite" == *"366 passed"* && $mut -ne 0 && $clean -eq 0 ]]; then
      mkdir -p /verif/seeded/$sid
      cp $src/$v.patch.diff /verif/seeded/$sid/patch.diff
      cp $src/$v.demo.py /verif/seeded/$sid/demo.py
      python3 - "$src/$v.meta.json" "/verif/seeded/$sid/meta.json" "$suite" $mut $clean <<'EOF'
import json, sys, subprocess
m = json.load(open(sys.argv[1]))
m["round"] = 8
m['confirmed'] = dict(
    ran='patch applied to a scratch copy of /repo HEAD; /venv/bin/python -m '
        'pytest -q (366 tests); demo.py on the changed copy; demo.py on the '
        'unchanged copy',
    result='suite=[%s] demo_mut=%s demo_clean=%s' % tuple(sys.argv[3:6]))
m['base_commit'] = subprocess.check_output(
    ['git', '-C', '/repo', 'rev-parse', '--short', 'HEAD']).decode().strip()
json.dump(m, open(sys.argv[2], 'w'), indent=1)
EOF
    else
      echo "   NOT KEPT: $sid"; tail -5 $d/_demo.out
    fi
    rm -rf $d
  done
done
