#!/bin/bash
# tools/import_benign.sh <Cxx> ...: keep the behaviour-preserving
# refactorings delivered in /tmp/wt4/<Cxx>/_out/R{1,2,3}.* under
# /verif/benign/<Cxx>-R<k>/ after confirming that the suite passes with them.
for pid in "$@"; do
  for k in 1 2 3; do
    src=/tmp/wt4/$pid/_out
    [ -f $src/R$k.patch.diff ] || { echo "$pid R$k: no patch"; continue; }
    d=$(mktemp -d /tmp/imp.XXXXXX)
    git -C /repo archive HEAD | tar -x -C $d
    ( cd $d && patch -p1 -s < $src/R$k.patch.diff ) || { echo "$pid-R$k PATCH-FAILED"; rm -rf $d; continue; }
    suite=$( cd $d && /venv/bin/python -m pytest -q -p no:cacheprovider -x 2>&1 | tail -1 )
    echo "$pid-R$k suite=[$suite]"
    if [[ "$suite" == *"366 passed"* ]]; then
      mkdir -p /verif/benign/$pid-R$k
      cp $src/R$k.patch.diff /verif/benign/$pid-R$k/patch.diff
      cp $src/R$k.meta.json /verif/benign/$pid-R$k/meta.json
    fi
    rm -rf $d
  done
done
