#!/bin/bash
# tools/mutdbg.sh <seeded-id> <contracts.module> [filter]: verify single
# contracts against a scratch copy with the seeded change (debug aid)
id=$1; d=$(mktemp -d /tmp/mut.XXXXXX)
cp -r /repo/yaql $d/yaql
( cd $d && patch -p1 -s < /verif/seeded/$id/patch.diff ) || { echo PATCH-FAILED; rm -rf $d; exit 9; }
VERIF_REPO=$d timeout ${T:-600} /venv/bin/python /verif/tools/dbg_contract.py $2 "${3:-}" $d 2>&1 | cut -c1-${W:-600}
rm -rf $d
