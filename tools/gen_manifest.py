#!/usr/bin/env python3
"""Regenerate /verif/MANIFEST.json from props/*.py metadata."""
import importlib
import json
import os
import sys
HOME = os.path.dirname(os.path.dirname(os.path.abspath(__file__)))
sys.path.insert(0, HOME)
sys.path.insert(0, os.path.join(HOME, '.deps'))
props = [json.loads(l) for l in open(os.path.join(HOME, 'properties.jsonl'))]
checks, na = [], []
for p in props:
    pid = p['id']
    try:
        m = importlib.import_module('props.' + pid)
    except ImportError:
        m = None
    if m is None or getattr(m, 'NOT_APPLICABLE', None):
        na.append(dict(property_id=pid, reason=getattr(
            m, 'NOT_APPLICABLE', None) or 'no check built yet for this '
            'property in this family (contract-based deductive verification);'
            ' see DESIGN.md section 5'))
        continue
    checks.append(dict(
        property_id=pid,
        quick_cmd='./check %s --tier quick' % pid,
        thorough_cmd='./check %s --tier thorough' % pid,
        evidence_file='evidence/%s.json' % pid,
        replay_cmd_template='./check %s --replay {path}' % pid,
        engine='pyvc',
        level_claimed=dict(category=getattr(m, 'LEVEL', 'proof'),
                           text=m.LEVEL_TEXT,
                           design_ref='DESIGN.md section 5, %s' % pid),
        level_note=m.LEVEL_NOTE,
        technique=m.TECHNIQUE))
man = dict(
    version=1,
    setup_cmd='cd /verif && mkdir -p .deps && ln -sfn /opt/veriftools/pyvenv/'
              'lib/python3.11/site-packages/z3 .deps/z3 && /venv/bin/python '
              '-m compileall -q vlib props contracts >/dev/null; true',
    hooks=dict(guard='YAQL_VERIF',
               enable='no hooks: contracts are sidecars under /verif/'
                      'contracts; checks read $VERIF_REPO (default /repo) '
                      'source on every run',
               baseline_off_cmd='cd /repo && /venv/bin/python -m pytest -ra '
                                '-q -p no:cacheprovider --timeout=900',
               source_commits=[], add_only=True),
    engines=[dict(name='pyvc', path='vlib/pyvc',
                  serves_properties=[c['property_id'] for c in checks],
                  kind_free_text='self-built deductive verifier: symbolic '
                  'execution of the real Python AST against sidecar '
                  'contracts, VCs discharged by z3 5.1 (cvc5 1.0.3 / z3 '
                  '4.8.12 CLIs on unknown); frames = syntactic write-frame '
                  'checker; sigflow = registered-signature flow checker')],
    checks=checks,
    notes='Exit codes: 0 held, 1 violation (VIOLATION line), 2 undecided, '
          '3 checker error. Bounded native cross-checks are labelled '
          'bounded and never counted as discharged obligations.',
    not_applicable=na)
json.dump(man, open(os.path.join(HOME, 'MANIFEST.json'), 'w'), indent=1)
print('claimed', [c['property_id'] for c in checks])
print('n/a', [x['property_id'] for x in na])
